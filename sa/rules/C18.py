"""C18 — formula constructors preserve truth value; emitted text matches the formula (scoped claim).

C18.a registry <-> wrappers <-> renderer agree: names registered, arities, SMT-LIB symbols, renderer covers Formula_T
C18.b commutativity flags only where SMT-LIB semantics is argument-order independent; __eq__ permutes only under the flag
C18.c no n-ary simplifier can build a connector with zero arguments; the empty case returns the neutral element
C18.d simplifier decision tables over the finite domain of argument shapes (literal true/false, atom, nested node)
C18.e literals and formulas are compared by value, not identity
"""
import ast
import itertools

from ..core.absint import Intervals
from ..core.flow import call_name, calls_in, is_name
from ..core.loader import AnalysisError, short, own_nodes, norm
from ..core.interp import ModuleInterp
from ..core.minieval import Evaluator, Unsupported, Raised, MODKEY as MODKEY_
from ..core.report import where
from ..specs.evm import SMTLIB, NEUTRAL, ABSORBING

TECHNIQUE = ("table extraction of the connector registry and comparison with an SMT-LIB reference; interval analysis of "
             "argument-list lengths at connector construction sites; exhaustive abstract evaluation of the simplifiers "
             "over the finite domain of argument shapes")
LEVEL_TEXT = ("Decides that every connector used is registered with an arity and commutativity flag consistent with SMT-LIB, that the renderer prints the registered symbol verbatim for every kind of formula, that structural equality permutes arguments only for order-independent symbols, that no simplifier can build an empty connective, and — by evaluating each simplifier's AST on every combination of argument shapes up to three arguments — that the simplified formula has the same truth table as the unsimplified one."
              ' Added in seeding rounds 8-9: a simplifier leaves its operands unchanged (fresh operands per application, compared before and after) and negated integer comparisons (ternary distinct) are in the shape family (C18.d).')
EXPLANATION = ("Shapes: literal True, literal False, opaque boolean atoms p,q, a nested node of the same connective over "
               "atoms, a nested `not`. Premise (checked syntactically): simplifiers inspect arguments only through "
               "type(), ==, .connector_name and .arguments, so shapes are exact representatives.")
NOT_DECIDED = ("formulas deeper than the shapes enumerated; integer-sorted terms inside = (the bool/int literal folding of "
               "_simplify_equal is reported as informational because the unsimplified formula is ill-sorted)")
EXHAUSTIVE = True
ASSUMPTIONS = ["SMT-LIB 2.6 Core/Ints semantics of the symbols in sa/specs/evm.py:SMTLIB"]

CF = "smt_encoding.constraints.connector_factory"


class _FakeRegistry:
    def __init__(self):
        self.entries = {}

    def register_connector(self, name, arity, comm, fn):
        self.entries[name] = {"arity": arity, "comm": comm, "fn": fn}


def evaluated_registry(ctx):
    """The registry as the module body builds it: the top-level statements of connector_factory (assignments, calls, loops) are
    interpreted in order with a recording stand-in for the Connectors singleton; module-level functions and lambdas become
    callables that interpret their own AST (closures bind late, as in Python).  -> {name: {arity, comm, fn, node}}"""
    import operator as _op
    if "C18.evalreg" in ctx.cache:
        return ctx.cache["C18.evalreg"]
    mod = ctx.p.module(CF)
    REG = _FakeRegistry()
    from ..core.interp import STDLIB_CALLS, STDLIB_MODELS
    shared = {"Connectors": (lambda: REG), "operator": STDLIB_MODELS["operator"], "Connector": CONNECTOR}
    shared.update({local: STDLIB_MODELS[imp[1]] for local, imp in ctx.r.imports.get(CF, {}).items() if imp[0] == "module" and imp[1] in STDLIB_MODELS and "." not in local})

    def type_of(x):
        return bool if isinstance(x, bool) else int if isinstance(x, int) else "Connector" if isinstance(x, FakeConn) else "ExpressionReference"
    shared["type"] = type_of

    def create_connector(name, *args):
        e = REG.entries.get(name)
        if e is None:
            raise Raised(f"ValueError: connector {name} not registered")
        if (e["arity"] != -1 and e["arity"] != len(args)) or (e["arity"] == -1 and len(args) == 0):
            raise Raised("AssertionError")
        return FakeConn(name, e["comm"], *args)

    def create_and_simplify(name, *args):
        c = create_connector(name, *args)
        return REG.entries[name]["fn"](c)
    REG.create_connector = create_connector
    REG.create_connector_and_simplify = create_and_simplify

    def hook(fname, args, kwargs):
        if fname in STDLIB_CALLS:
            try:
                return STDLIB_CALLS[fname](*args, **kwargs)
            except (TypeError, ValueError, IndexError, KeyError) as ex:
                raise Raised(type(ex).__name__)
        raise Unsupported(f"call {fname}")

    def closure(node):
        def call(*a, **k):
            ev = Evaluator(node, globals_env=shared, call_hook=hook, obj_types=(FakeConn, _FakeRegistry, Atom), max_steps=200000)
            ev.genv = shared
            return ev.call(*a, **k)
        return call
    body = []
    assigned = set()
    for st in mod.tree.body:
        if isinstance(st, ast.FunctionDef):
            shared[st.name] = closure(st)
        elif isinstance(st, (ast.Assign, ast.Expr, ast.For, ast.If, ast.AugAssign)):
            if isinstance(st, ast.Expr) and isinstance(st.value, ast.Constant):
                continue
            body.append(st)
            for x in ast.walk(st):
                if isinstance(x, ast.Name) and isinstance(x.ctx, ast.Store):
                    assigned.add(x.id)
    fn = ast.FunctionDef(name="_module", args=ast.arguments(posonlyargs=[], args=[], kwonlyargs=[], kw_defaults=[], defaults=[]),
                         body=([ast.Global(names=sorted(assigned))] if assigned else []) + body, decorator_list=[])
    ev = Evaluator(fn, globals_env=shared, call_hook=hook, obj_types=(FakeConn, _FakeRegistry, Atom), max_steps=200000)
    ev.genv = shared
    try:
        ev.call()
    except (Unsupported, Raised) as e:
        raise AnalysisError(f"connector_factory: module body cannot be evaluated abstractly: {e}")
    # source positions of the registrations, for messages
    nodes = {}
    for st in ast.walk(mod.tree):
        if isinstance(st, ast.Call) and call_name(st) == "register_connector" and st.args and isinstance(st.args[0], ast.Constant):
            nodes[st.args[0].value] = st
    out_ = {k: dict(v, node=nodes.get(k)) for k, v in REG.entries.items()}
    if len(out_) < 6:
        raise AnalysisError(f"only {len(out_)} connectors registered by the module body of connector_factory")
    ctx.cache["C18.evalreg"] = (out_, REG)
    return out_, REG


def registry(ctx):
    mod = ctx.p.module(CF)
    ereg, _ = evaluated_registry(ctx)
    reg = {}
    for name, e in ereg.items():
        simp = None
        n = e["node"]
        if n is not None and len(n.args) >= 4:
            simp = n.args[3]
        reg[name] = {"arity": e["arity"], "comm": e["comm"], "simp": simp if simp is not None else ast.Constant(value=None), "node": n if n is not None else mod.tree, "fn": e["fn"]}
    return mod, reg


def rule_a(ctx, out):
    mod, reg = registry(ctx)
    # names used anywhere in the project
    for m in ctx.p.modules.values():
        for n in ast.walk(m.tree):
            if isinstance(n, ast.Call) and call_name(n) in ("create_connector", "create_connector_and_simplify") and n.args \
                    and isinstance(n.args[0], ast.Constant):
                name = n.args[0].value
                if name in reg:
                    out.ok({"use": short(n, 60), "registered": True})
                else:
                    out.bad(f"unregistered-connector:{name}", f"connector \"{name}\" is created but never registered (ValueError at run time)", f"{m.rel}:{n.lineno}")
                # arity
                if name in reg:
                    ar = reg[name]["arity"]
                    star = any(isinstance(a, ast.Starred) for a in n.args[1:])
                    npos = len(n.args) - 1
                    if ar == -1:
                        out.ok()
                    elif star:
                        out.bad(f"arity:{name}:variadic-call", f"\"{name}\" has fixed arity {ar} but is created from a variadic argument list", f"{m.rel}:{n.lineno}")
                    elif npos != ar:
                        out.bad(f"arity:{name}:{npos}", f"\"{name}\" is registered with arity {ar} but created with {npos} arguments "
                                f"(AssertionError at run time)", f"{m.rel}:{n.lineno}")
                    else:
                        out.ok()
    # registered names are SMT-LIB symbols of the right arity class
    for name, r in sorted(reg.items()):
        spec = SMTLIB.get(name)
        if spec is None:
            out.bad(f"not-an-smtlib-symbol:{name}", f"connector \"{name}\" is rendered verbatim but is not an SMT-LIB Core/Ints symbol", where(mod, r["node"]))
            continue
        lo, hi, _ = spec
        ar = r["arity"]
        ok = (ar == -1 and hi is None) or (ar != -1 and ar >= lo and (hi is None or ar <= hi))
        if ok:
            out.ok({"connector": name, "arity": ar, "smtlib": f"{lo}..{hi or 'n'}"})
        else:
            out.bad(f"arity-class:{name}", f"\"{name}\" registered with arity {ar}; SMT-LIB allows {lo}..{hi or 'n'}", where(mod, r["node"]))
    # wrappers: add_*(params) pass their parameters in order
    for f in ctx.p.funcs_in(CF):
        if f.cls is None and f.name.startswith("add_"):
            cs = [c for c in calls_in(f.node) if call_name(c) in ("create_connector", "create_connector_and_simplify")]
            if len(cs) != 1:
                continue
            passed = [a.value.id if isinstance(a, ast.Starred) and isinstance(a.value, ast.Name) else a.id if isinstance(a, ast.Name) else None
                      for a in cs[0].args[1:]]
            if passed == f.params:
                out.ok({"wrapper": f.name, "passes": passed})
            else:
                out.bad(f"wrapper-argument-order:{f.name}", f"{f.name}{tuple(f.params)} passes {passed}: arguments reordered or dropped", where(f))
    # renderer: abstract evaluation of translate_formula on one representative per kind of formula (and nestings of them)
    tf = ctx.func("smt_encoding.solver.solver_from_executable.translate_formula")

    rmi = ModuleInterp(ctx, obj_types=(FakeRef, FakeConn, FakeFunc), max_steps=50000, inject={"ExpressionReference": FakeRef})

    def render(x):
        return rmi.call(tf, x)

    def expected(x):
        if isinstance(x, bool):
            return ["true"] if x else ["false"]
        if isinstance(x, int):
            return [str(x)]
        if isinstance(x, FakeRef):
            if not x.arguments:
                return [x.func.name]
            return ["(", x.func.name] + [t for a in x.arguments for t in expected(a)] + [")"]
        return ["(", x.connector_name] + [t for a in x.arguments for t in expected(a)] + [")"]

    def toks(txt):
        return txt.replace("(", " ( ").replace(")", " ) ").split()
    xr, yr = FakeRef(FakeFunc("x")), FakeRef(FakeFunc("y_1"))
    cases = [("bool-literal-true", True), ("bool-literal-false", False), ("int-literal-0", 0), ("int-literal-1", 1), ("int-literal", 7),
             ("constant", xr), ("application", FakeRef(FakeFunc("f"), xr, 1)), ("application-with-bool", FakeRef(FakeFunc("g"), True, yr, 0)),
             ("connector", FakeConn("and", True, xr, yr)), ("connector-with-literals", FakeConn("or", True, xr, True, False)),
             ("connector-with-int", FakeConn("<", False, xr, 1)), ("nested-connector", FakeConn("not", False, FakeConn("=", True, xr, 0))),
             ("connector-over-application", FakeConn("=>", False, FakeRef(FakeFunc("f"), xr, 1), FakeConn("<=", False, 0, yr)))]
    for label, frm in cases:
        try:
            got = render(frm)
        except Raised as e:
            out.bad(f"renderer-raises:{label}", f"translate_formula raises {e.what} on a formula of kind {label} ({frm!r})", where(tf))
            continue
        except Unsupported as e:
            raise AnalysisError(f"translate_formula: cannot evaluate abstractly on {frm!r}: {e}")
        if isinstance(got, str) and toks(got) == expected(frm):
            out.ok({"renderer": label, "formula": repr(frm), "text": got})
        else:
            out.bad(f"renderer:{label}", f"translate_formula({frm!r}) = {got!r}; SMT-LIB text of that formula is `{' '.join(expected(frm))}`", where(tf),
                    {"formula": repr(frm), "rendered": repr(got)})


def rule_b(ctx, out):
    mod, reg = registry(ctx)
    for name, r in sorted(reg.items()):
        spec = SMTLIB.get(name)
        if spec is None:
            continue
        if r["comm"] and not spec[2]:
            out.bad(f"commutative-flag:{name}", f"\"{name}\" is registered commutative, but its SMT-LIB meaning depends on argument order: "
                    f"structurally 'equal' formulas can differ in truth value", where(mod, r["node"]))
        else:
            out.ok({"connector": name, "commutative": r["comm"], "order_independent": spec[2]})
    # Connector.__eq__ : abstract evaluation over pairs of small connectors — equal => same truth table; reflexive
    import itertools as _it
    eq = ctx.p.cls("smt_encoding.constraints.connector.Connector").methods.get("__eq__")
    if eq is None:
        raise AnalysisError("Connector.__eq__ not found")
    comm = {k: v["comm"] for k, v in reg.items()}
    atoms = [Atom("p"), Atom("q"), Atom("r")]
    vals = [dict(p=a, q=b, r=c) for a in (False, True) for b in (False, True) for c in (False, True)]

    def type_of(x):
        return "Connector" if isinstance(x, FakeConn) else type(x)

    def run_eq(c1, c2):
        ev = Evaluator(eq.node, globals_env={"type": type_of, "itertools": {"\0module": "itertools"}},
                       call_hook=lambda name, a, k: list(_it.permutations(*a)) if name.endswith("permutations") else (_ for _ in ()).throw(Unsupported(name)),
                       obj_types=(FakeConn, Atom), max_steps=200000)
        return bool(ev.call(c1, c2))

    conns = []
    for name in ("and", "or", "=>", "not"):
        if name not in reg:
            continue
        ar = reg[name]["arity"]
        sizes = [1, 2, 3] if ar == -1 else [ar]
        for k in sizes:
            for args in _it.product(atoms, repeat=k):
                conns.append(FakeConn(name, comm.get(name, False), *args))
    # a connector with the same arguments but the other commutativity flag / another name is included through the product
    n_pairs = 0
    try:
        for c1 in conns:
            if not run_eq(c1, FakeConn(c1.connector_name, c1.is_commutative, *c1.arguments)):
                out.bad(f"Connector.__eq__:not-reflexive:{c1.connector_name}/{len(c1.arguments)}", f"{c1!r} is not equal to a copy of itself", where(eq))
            for c2 in conns:
                n_pairs += 1
                if run_eq(c1, c2):
                    same = all(_truth(c1, v) == _truth(c2, v) for v in vals)
                    if not same:
                        out.bad(f"Connector.__eq__:equal-but-different-truth:{c1.connector_name}/{len(c1.arguments)}~{c2.connector_name}/{len(c2.arguments)}",
                                f"structural equality holds for {c1!r} and {c2!r}, whose truth tables differ", where(eq),
                                {"left": repr(c1), "right": repr(c2)})
    except Unsupported as e:
        raise AnalysisError(f"Connector.__eq__: cannot evaluate abstractly: {e}")
    except Raised as e:
        out.bad("Connector.__eq__:raises", f"__eq__ raises {e.what}", where(eq))
    out.instances += n_pairs
    out.satisfied += n_pairs - len([f for f in out.findings if "Connector.__eq__" in f.key])
    out.samples.append({"connector_pairs_compared": n_pairs})


def _simplifier_funcs(ctx, reg):
    res = {}
    for name, r in reg.items():
        if isinstance(r["simp"], ast.Name):
            f = ctx.p.func_opt(f"{CF}.{r['simp'].id}")
            if f is not None:
                res[name] = f
    return res


def _tracked_list(f, exprs):
    """Every starred expression is a local name whose bindings in f are list displays / list() and whose growth is by append / extend / +=
    (what the interval analysis follows)."""
    for e in exprs:
        if not isinstance(e, ast.Name):
            return False
        binds = [n for n in own_nodes(f.node) if isinstance(n, ast.Assign) and any(is_name(t, e.id) for t in n.targets)]
        if not binds or not all(isinstance(b.value, (ast.List, ast.Tuple)) or (isinstance(b.value, ast.Call) and call_name(b.value) == "list" and not b.value.args)
                                for b in binds):
            return False
    return True


def rule_c(ctx, out):
    mod, reg = registry(ctx)
    simps = _simplifier_funcs(ctx, reg)
    runner = _simplifier_runner(ctx)
    for name, f in sorted(simps.items()):
        if reg[name]["arity"] != -1:
            continue
        cfg = ctx.cfg(f)
        iv = Intervals(cfg)
        sites = [c for c in calls_in(f.node) if call_name(c) in ("create_connector", "create_connector_and_simplify")
                 and c.args and isinstance(c.args[0], ast.Constant) and reg.get(c.args[0].value, {}).get("arity") == -1]
        for c in sites:
            star = [a for a in c.args[1:] if isinstance(a, ast.Starred)]
            fixed = len(c.args) - 1 - len(star)
            if fixed >= 1:
                out.ok({"simplifier": f.name, "site": short(c), "arguments": f">= {fixed}"})
                continue
            at = cfg.node_containing(c)
            lens = [iv.interval(ast.parse(f"len({norm(s.value)})", mode="eval").body, at) for s in star]
            lo = sum(l[0] for l in lens) if lens else 0
            if lo >= 1:
                out.ok({"simplifier": f.name, "site": short(c), "len_interval": [str(lens[0][0]), str(lens[0][1])]})
            elif not _tracked_list(f, [s.value for s in star]):
                # the argument list is not built by appends the interval analysis follows (a comprehension, a reduce, a helper): the
                # analysis has no bound, which is not a finding.  Decided on the applications that make the list empty instead: every
                # argument the neutral literal, 1..4 of them (C18.d evaluates the mixed shapes and reports any AssertionError there)
                raised = None
                for k in (1, 2, 3, 4):
                    try:
                        runner[4](f, runner[3](name, *([NEUTRAL[name]] * k)))
                    except Raised as e:
                        raised = (k, e.what)
                        break
                    except Unsupported as e:
                        raise AnalysisError(f"{f.name}: cannot evaluate abstractly on {k} neutral arguments: {e}")
                if raised is None:
                    out.ok({"simplifier": f.name, "site": short(c), "decided": "by evaluation on 1..4 neutral arguments (list not built by tracked appends)"})
                else:
                    out.bad(f"{f.name}:empty-connector", f"{f.name} applied to {raised[0]} neutral argument(s) raises {raised[1]}: {short(c)} is reached with an "
                            f"empty argument list", where(f, c))
            else:
                out.bad(f"{f.name}:empty-connector", f"{f.name} can call {short(c)} with an empty argument list (e.g. all arguments were the "
                        f"neutral literal): create_connector asserts len(args) > 0", where(f, c))
        # the empty case returns the neutral element
        for n in cfg.nodes:
            len_zero = isinstance(n.ast, ast.Compare) and norm(n.ast.left).startswith("len(") and isinstance(n.ast.ops[0], ast.Eq) \
                and isinstance(n.ast.comparators[0], ast.Constant) and n.ast.comparators[0].value == 0
            not_seq = isinstance(n.ast, ast.UnaryOp) and isinstance(n.ast.op, ast.Not) and isinstance(n.ast.operand, ast.Name)
            eq_empty = isinstance(n.ast, ast.Compare) and isinstance(n.ast.ops[0], ast.Eq) and isinstance(n.ast.comparators[0], ast.List) and not n.ast.comparators[0].elts
            if n.kind == "test" and (len_zero or not_seq or eq_empty):
                body = n.owner.body
                rv = [s for s in body if isinstance(s, ast.Return)]
                if rv and isinstance(rv[0].value, ast.Constant) and rv[0].value.value is NEUTRAL.get(name):
                    out.ok({"simplifier": f.name, "empty_case": f"returns {NEUTRAL.get(name)}"})
                else:
                    out.bad(f"{f.name}:empty-case-not-neutral", f"the empty {name} must be {NEUTRAL.get(name)}", where(f, n.ast))
    # create_connector itself rejects empty n-ary applications
    cc = ctx.func(f"{CF}.Connectors.create_connector")
    asserts = [n for n in own_nodes(cc.node) if isinstance(n, ast.Assert) and "len(args)" in norm(n.test)]
    if len(asserts) >= 2:
        out.ok({"create_connector": [norm(a.test) for a in asserts]})
    else:
        out.bad("create_connector:arity-asserts-removed", "create_connector no longer checks the number of arguments", where(cc))


# ----------------------------------------------------------------------------------------------- C18.d
class FakeConn:
    """Stand-in used by the abstract evaluation: same attribute names as Connector."""
    def __init__(self, name, comm, *args):
        self.connector_name = name
        self.is_commutative = comm
        self.arguments = list(args)

    def __eq__(self, other):
        return isinstance(other, FakeConn) and self.connector_name == other.connector_name and self.arguments == other.arguments

    def __hash__(self):
        return id(self)

    def __repr__(self):
        return f"{self.connector_name}({', '.join(map(repr, self.arguments))})"


class FakeFunc:
    def __init__(self, name):
        self.name = name

    def __str__(self):
        return self.name

    __repr__ = __str__


class FakeRef:
    """Stand-in for ExpressionReference: func, arguments, and the class's own __str__ (name, or name and arguments)."""
    def __init__(self, func, *args):
        self.func = func
        self.arguments = list(args)

    def __str__(self):
        return str(self.func) if not self.arguments else f"{self.func} {' '.join(str(a) for a in self.arguments)}"

    __repr__ = __str__


class Atom:
    def __init__(self, n):
        self.n = n

    def __eq__(self, other):
        return isinstance(other, Atom) and other.n == self.n

    def __hash__(self):
        return hash(self.n)

    def __repr__(self):
        return self.n


def _truth(f, val):
    if isinstance(f, bool):
        return f
    if isinstance(f, Atom):
        return val[f.n]
    if isinstance(f, FakeConn):
        a = [_truth(x, val) for x in f.arguments]
        n = f.connector_name
        if n == "and":
            return all(a)
        if n == "or":
            return any(a)
        if n == "not":
            return not a[0]
        if n == "=>":
            return (not a[0]) or a[1]
        if n == "=":
            return all(x == a[0] for x in a)
        if n == "distinct":
            return len(set(a)) == len(a)
        if n == "<":
            return a[0] < a[1]
        if n == "<=":
            return a[0] <= a[1]
    raise Unsupported(f"cannot evaluate {f!r}")


class _ConnectorType:
    """Stand-in for the class Connector inside interpreted code: equal to the tag `type(x)` yields for a stand-in connector, and callable as
    the constructor Connector(name, is_commutative, *args) (no arity check, exactly like the real class)."""
    def __eq__(self, other):
        return other is self or other == "Connector"

    def __ne__(self, other):
        return not self.__eq__(other)

    def __hash__(self):
        return hash("Connector")

    def __call__(self, name, comm, *args):
        return FakeConn(name, comm, *args)


CONNECTOR = _ConnectorType()


def _fresh(x):
    """A structurally equal formula made of new connector objects (operands are never shared between two evaluated applications)."""
    if isinstance(x, FakeConn):
        return FakeConn(x.connector_name, x.is_commutative, *[_fresh(a) for a in x.arguments])
    return x


def _simplifier_runner(ctx):
    """(reg, simps, mk, run): the simplifiers of connector_factory interpreted on stand-in connectors.  FakeConn.arguments is the connector's
    own list, as Connector.arguments is (premise checked: the property returns the attribute __init__ stores, uncopied)."""
    from ..core.interp import STDLIB_CALLS, STDLIB_MODELS
    mod, reg = registry(ctx)
    simps = _simplifier_funcs(ctx, reg)
    comm = {k: v["comm"] for k, v in reg.items()}
    ccls = ctx.p.cls("smt_encoding.constraints.connector.Connector")
    prop = ccls.methods.get("arguments")
    init = ccls.methods.get("__init__")
    if prop is None or init is None:
        raise AnalysisError("Connector.arguments / __init__ not found")
    rets = [n for n in own_nodes(prop.node) if isinstance(n, ast.Return)]
    if len(rets) != 1 or not (isinstance(rets[0].value, ast.Attribute) and is_name(rets[0].value.value, "self")):
        raise AnalysisError("Connector.arguments no longer returns a stored attribute: the stand-in connector of C18 must be re-modelled")

    def mk(name, *args):
        return FakeConn(name, comm.get(name, False), *args)

    # the registry object as seen by the simplifiers
    def create_connector(name, *args):
        ar = reg[name]["arity"]
        if (ar != -1 and ar != len(args)) or (ar == -1 and len(args) == 0):
            raise Raised("AssertionError")
        return mk(name, *args)

    def simplify(name, conn):
        f = simps.get(name)
        if f is None:
            return conn
        return run(f, conn)

    def hook(fname, args, kwargs):
        if fname.endswith("create_connector_and_simplify"):
            c = create_connector(*args)
            return simplify(args[0], c)
        if fname.endswith("create_connector"):
            return create_connector(*args)
        if fname == "type":
            x = args[0]
            return bool if isinstance(x, bool) else int if isinstance(x, int) else "Connector" if isinstance(x, FakeConn) else "ExpressionReference"
        if fname in STDLIB_CALLS:
            try:
                return STDLIB_CALLS[fname](*args, **kwargs)
            except (TypeError, ValueError, IndexError, KeyError) as ex:
                raise Raised(type(ex).__name__)
        helper = ctx.p.functions.get(f"{CF}.{fname}")
        if helper is not None and helper.cls is None:
            return run(helper, *args, **kwargs)        # a helper extracted from a simplifier: interpreted like the simplifier itself
        raise Unsupported(f"call {fname}")

    stdlib = {local: STDLIB_MODELS[imp[1]] for local, imp in ctx.r.imports.get(CF, {}).items() if imp[0] == "module" and imp[1] in STDLIB_MODELS and "." not in local}
    consts = {}       # module-level literal tables of connector_factory (look-up tables the simplifiers consult)
    for st in mod.tree.body:
        if isinstance(st, ast.Assign) and all(isinstance(t, ast.Name) for t in st.targets):
            try:
                v = ast.literal_eval(st.value)
            except Exception:
                continue
            for t in st.targets:
                consts[t.id] = v

    def run(f, *cargs, **ckwargs):
        def type_of(x):
            return bool if isinstance(x, bool) else int if isinstance(x, int) else "Connector" if isinstance(x, FakeConn) else "ExpressionReference"
        ev = Evaluator(f.node, globals_env={**stdlib, **consts, "Connector": CONNECTOR, "bool": bool, "int": int, "type": type_of, "_connectors": {"\0module": "_connectors"}},
                       call_hook=hook, obj_types=(FakeConn,))
        return ev.call(*cargs, **ckwargs)

    return mod, reg, simps, mk, run


def rule_d(ctx, out):
    mod, reg, simps, mk, run = _simplifier_runner(ctx)
    p, q = Atom("p"), Atom("q")
    ix, iy, iz = Atom("ix"), Atom("iy"), Atom("iz")

    shapes = {
        "and": [True, False, p, q, mk("and", p, q), mk("not", p), mk("or", p, q)],
        "or": [True, False, p, q, mk("or", p, q), mk("not", q), mk("and", p, q)],
        # (negations of integer comparisons too: `distinct` is variadic and pairwise, `=` chains — they are duals for two operands only)
        "not": [True, False, p, mk("not", p), mk("not", mk("not", q)), mk("and", p, q), mk("=", ix, iy), mk("distinct", ix, iy), mk("distinct", ix, iy, iz),
                mk("<", ix, iy), mk("<=", ix, iy)],
        "=>": [True, False, p, q, mk("not", p), mk("=>", p, q), mk("=>", q, p), mk("=>", p, p), mk("and", p, q), mk("or", p, q)],
        "=": [True, False, p, q],
    }
    vals = [dict(p=a, q=b, ix=c, iy=d, iz=e) for a in (False, True) for b in (False, True) for c in (0, 1) for d in (0, 1) for e in (0, 1, 2)]
    mutating = set()
    for name, f in sorted(simps.items()):
        if name not in shapes:
            continue
        ar = reg[name]["arity"]
        arities = ([1, 2, 3, 4] if ctx.tier == "thorough" else [1, 2, 3]) if ar == -1 else [ar]
        for k in arities:
            for combo in itertools.product(shapes[name], repeat=k):
                combo = tuple(_fresh(x) for x in combo)
                before = [repr(x) for x in combo]
                conn = mk(name, *combo)
                whole = repr(conn)
                try:
                    res = run(f, conn)
                    changed = [b for b, x in zip(before, combo) if repr(x) != b]
                    if changed and f.name in mutating:
                        continue
                    if changed:
                        mutating.add(f.name)
                        # a constructor hands out new formulas; the operands it was given keep their meaning (they are shared between
                        # constraints: `pre = add_and(a, b); add_and(pre, d)` must leave `pre` alone)
                        out.bad(f"{f.name}:mutates-operand", f"{f.name} applied to {whole} changes its operand {changed[0]} into "
                                f"{[repr(x) for b, x in zip(before, combo) if repr(x) != b][0]}: every formula built from that operand changes its truth value",
                                where(f), {"input": whole})
                        continue
                except Raised as e:
                    out.bad(f"{f.name}:raises:{_shape(combo)}", f"{f.name} raises {e.what} on {conn!r}; the unsimplified formula has a truth value",
                            where(f), {"input": repr(conn)})
                    continue
                except Unsupported as e:
                    raise AnalysisError(f"{f.name}: cannot evaluate abstractly on {conn!r}: {e}")
                try:
                    same = all(_truth(conn, v) == _truth(res, v) for v in vals)
                except Unsupported as e:
                    raise AnalysisError(f"{f.name}: result {res!r} outside the shape domain: {e}")
                if same:
                    out.ok({"simplifier": f.name, "input": repr(conn), "output": repr(res)})
                else:
                    out.bad(f"{f.name}:changes-truth-value:{_shape(combo)}", f"{f.name}({conn!r}) = {res!r}: different truth table", where(f),
                            {"input": repr(conn), "output": repr(res)})
    # integer-sorted equality: literals are distinct objects of equal / different value (as the encoder creates them), x is an integer term
    f_eq = simps.get("=")
    if f_eq is None:
        raise AnalysisError("no simplifier registered for \"=\"")
    x = Atom("x")
    consts = [0, 1, 5, 256, 257, 1000, 2 ** 256 - 1]
    int_cases = [(a, int(str(b))) for a in consts for b in consts] + [(x, x), (x, 5), (5, x), (x, Atom("y"))]
    for a, b in int_cases:
        conn = mk("=", a, b)
        try:
            res = run(f_eq, conn)
        except Raised as e:
            out.bad(f"{f_eq.name}:raises:int", f"{f_eq.name} raises {e.what} on {conn!r}", where(f_eq))
            continue
        except Unsupported as e:
            raise AnalysisError(f"{f_eq.name}: cannot evaluate abstractly on {conn!r}: {e}")
        if isinstance(a, int) and isinstance(b, int):
            good = (res is conn) or (isinstance(res, bool) and res == (a == b)) or (isinstance(res, FakeConn) and res == conn)
        elif a == b:
            good = res is True or res is conn or (isinstance(res, FakeConn) and res == conn)
        else:
            good = res is conn or (isinstance(res, FakeConn) and res == conn)
        kind = "equal-literals" if isinstance(a, int) and isinstance(b, int) and a == b else "different-literals" if isinstance(a, int) and isinstance(b, int) else "terms"
        if good:
            out.ok({"simplifier": f_eq.name, "input": repr(conn), "output": repr(res)})
        else:
            out.bad(f"{f_eq.name}:changes-truth-value:int:{kind}", f"{f_eq.name}({conn!r}) = {res!r}", where(f_eq), {"input": repr(conn), "output": repr(res)})
    # integer-sorted comparison connectors, through the registry as the module builds it (whatever callable each name got)
    _, REG = evaluated_registry(ctx)
    sem = {"<": lambda a, b: a < b, "<=": lambda a, b: a <= b, "=": lambda a, b: a == b, "distinct": lambda a, b: a != b}
    for cname, truth in sem.items():
        if cname not in REG.entries:
            continue
        for a, b in [(0, 0), (0, 1), (1, 0), (2, 2), (5, 7), (7, 5), (1000, int("1000")), (x, 3), (3, x), (x, x), (x, Atom("y"))]:
            try:
                res = REG.create_connector_and_simplify(cname, a, b)
            except Raised as e:
                out.bad(f"simplifier-of:{cname}:raises", f"the simplifier registered for \"{cname}\" raises {e.what} on ({a!r}, {b!r})", where(mod))
                continue
            except Unsupported as e:
                raise AnalysisError(f"simplifier of \"{cname}\": cannot evaluate abstractly on ({a!r}, {b!r}): {e}")
            plain = FakeConn(cname, False, a, b)
            if isinstance(a, int) and isinstance(b, int):
                good = (isinstance(res, bool) and res == truth(a, b)) or (isinstance(res, FakeConn) and res.connector_name == cname and res.arguments == [a, b])
            elif isinstance(res, bool):
                good = a == b and res == truth(0, 0)       # a term compared with itself
            else:
                good = isinstance(res, FakeConn) and res.connector_name == cname and res.arguments == [a, b]
            if good:
                out.ok({"connector": cname, "arguments": [repr(a), repr(b)], "result": repr(res)})
            else:
                out.bad(f"simplifier-of:{cname}:changes-truth-value:{'literals' if isinstance(a, int) and isinstance(b, int) else 'terms'}",
                        f"`({cname} {a!r} {b!r})` is built as {res!r}", where(mod, REG.entries[cname].get('node') if False else None))
    # n-ary integer-sorted connectors (chainable / pairwise): every tuple of 2..3 (thorough: 4) arguments over three literals and an
    # integer term; whatever is built must have the truth value of the unsimplified formula for every value of the term
    NARY = {"=": lambda v: all(a == v[0] for a in v), "distinct": lambda v: len(set(v)) == len(v),
            "<": lambda v: all(a < b for a, b in zip(v, v[1:])), "<=": lambda v: all(a <= b for a, b in zip(v, v[1:])),
            ">": lambda v: all(a > b for a, b in zip(v, v[1:])), ">=": lambda v: all(a >= b for a, b in zip(v, v[1:]))}

    def ival(f, env):
        if isinstance(f, bool):
            return f
        if isinstance(f, int):
            return f
        if isinstance(f, Atom):
            return env[f.n]
        if isinstance(f, FakeConn) and f.connector_name in NARY:
            return NARY[f.connector_name]([ival(a, env) for a in f.arguments])
        if isinstance(f, FakeConn):
            return _truth(FakeConn(f.connector_name, False, *[ival(a, env) if isinstance(a, FakeConn) else a for a in f.arguments]), env)
        raise Unsupported(f"cannot evaluate {f!r}")
    envs = [{"x": k} for k in range(4)]
    for cname in sorted(NARY):
        e = REG.entries.get(cname)
        if e is None:
            continue
        lengths = [2, 3, 4] if (e["arity"] == -1 and ctx.tier == "thorough") else [2, 3] if e["arity"] == -1 else [e["arity"]] if e["arity"] >= 2 else []
        for k in lengths:
            for args in itertools.product([0, 1, 2, x], repeat=k):
                try:
                    res = REG.create_connector_and_simplify(cname, *args)
                except Raised as ex:
                    out.bad(f"simplifier-of:{cname}:raises", f"the simplifier registered for \"{cname}\" raises {ex.what} on {args!r}", where(mod))
                    continue
                except Unsupported as ex:
                    raise AnalysisError(f"simplifier of \"{cname}\": cannot evaluate abstractly on {args!r}: {ex}")
                try:
                    want = [NARY[cname]([ival(a, env) for a in args]) for env in envs]
                    got = [ival(res, env) for env in envs]
                except Unsupported as ex:
                    raise AnalysisError(f"simplifier of \"{cname}\": result {res!r} outside the evaluated domain: {ex}")
                if got == want:
                    out.ok()
                else:
                    lits = all(isinstance(a, int) for a in args)
                    out.bad(f"simplifier-of:{cname}:changes-truth-value:{'literals' if lits else 'terms'}:{k}-ary",
                            f"`({cname} {' '.join(map(repr, args))})` is built as {res!r}: for x = {envs[[i for i in range(4) if got[i] != want[i]][0]]['x']} the formula is "
                            f"{want[[i for i in range(4) if got[i] != want[i]][0]]}", where(mod), {"arguments": repr(args), "built": repr(res)})
    # informational: bool/int literal folding in _simplify_equal
    out.info["literal_typing"] = "_simplify_equal folds a bool/int literal pair with Python == (add_eq(True, 1) -> True); the unsimplified formula is ill-sorted"


def _shape(combo):
    def s(x):
        if isinstance(x, bool):
            return "T" if x else "F"
        if isinstance(x, Atom):
            return "a"
        return x.connector_name
    return ",".join(s(x) for x in combo)


def rule_e(ctx, out):
    """Literals and formulas are compared by value.  `a is b` between two integer literals is true only for the same object (CPython
    shares ints in -5..256 only), so a simplifier that folds `(= c c')` with `is` folds equal constants to false."""
    from ..core.idioms import identity_comparisons
    n = 0
    for f, c, ok in identity_comparisons(ctx, ("smt_encoding.",)):
        n += 1
        if ok:
            out.ok({"function": f.qual, "identity_test": short(c, 60)})
        else:
            out.bad(f"identity-comparison-of-values:{f.name}:{norm(c)}", f"{f.qual}: `{short(c, 70)}` compares two values by object identity", where(f, c))
    if n < 20:
        raise AnalysisError(f"only {n} identity comparisons found in smt_encoding")


RULES = [
    ("C18.e", "literals and formulas are compared by value, not identity", 20, rule_e),
    ("C18.a", "registry, wrappers and renderer agree", 30, rule_a),
    ("C18.b", "commutativity flags and structural equality", 9, rule_b),
    ("C18.c", "no empty n-ary connector", 3, rule_c),
    ("C18.d", "simplifiers preserve the truth table on all argument shapes", 300, rule_d),
]
