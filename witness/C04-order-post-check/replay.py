import sys, warnings, io, contextlib
warnings.simplefilter("ignore")
root="/repo"
sys.path.insert(0,root)
from sfs_generator.parser_asm import parse_blocks_from_plain_instructions
import sfs_generator.ir_block as ir_block
from sfs_generator.gasol_optimization import get_sfs_dict
from greedy.block_generation import greedy_from_json
txt=sys.argv[1]
with contextlib.redirect_stdout(io.StringIO()):
    b=parse_blocks_from_plain_instructions(txt)[0]
    data={"instructions": b.instructions_to_optimize_plain(), "input": 6}
    ir_block.evm2rbr_compiler(file_name="f", block=data, block_name="b", block_id=0, simplification=True, push=True)
    d=get_sfs_dict()["syrup_contract"]
    out=[]
    for k,v in d.items():
        r=greedy_from_json(v)
        out.append((k, v["memory_dependences"], v["storage_dependences"], r[3], r[4]))
for o in out: print(o)
