import sys, warnings, json
warnings.filterwarnings("ignore")
sys.path.insert(0,'/repo')
from argparse import ArgumentParser
import gasol_asm
from sfs_generator.parser_asm import parse_blocks_from_plain_instructions
from global_params.options import OptimizationParams
from greedy.block_generation import greedy_from_json
gasol_asm.init()
ap = ArgumentParser(); gasol_asm.options_gasol(ap)
_blk = sys.argv[1] if len(sys.argv) > 1 else 'block1.txt'; sys.argv = ["x", "in.txt", "-bl", "-greedy"]
pa = gasol_asm.parse_encoding_args(ap)
p = OptimizationParams(); p.parse_args(pa)
b = parse_blocks_from_plain_instructions(sys.argv_block if hasattr(sys,'argv_block') else open(_blk).read())[0]
d, sl = gasol_asm.compute_original_sfs_with_simplifications(b, p)
for k, v in d["syrup_contract"].items():
    print(k, "sto", v["storage_dependences"], "mem", v["memory_dependences"])
    for u in v["user_instrs"]: print("  ", u["id"], u["inpt_sk"], u["outpt_sk"])
    r = greedy_from_json(v)
    print(r[1:] if isinstance(r, tuple) else r)
