import sys, warnings
warnings.filterwarnings("ignore")
sys.path.insert(0,'/repo')
from argparse import ArgumentParser
import gasol_asm
from sfs_generator.parser_asm import parse_blocks_from_plain_instructions
from global_params.options import OptimizationParams
gasol_asm.init()
ap = ArgumentParser(); gasol_asm.options_gasol(ap)
sys.argv = ["x", "in.txt", "-bl", "-greedy"]
pa = gasol_asm.parse_encoding_args(ap)
p = OptimizationParams(); p.parse_args(pa)
def blk(txt): return parse_blocks_from_plain_instructions(txt)[0]
for x, y in [("PUSH 1 PUSH 2 PUSH 3 CALLDATACOPY PUSH 5 PUSH 6 ADD", "PUSH 1 PUSH 2 PUSH 3 CODECOPY PUSH 5 PUSH 6 ADD"),
             ("PUSH 1 PUSH 2 LOG0 PUSH 5", "PUSH 1 PUSH 2 GAS PUSH 5"),
             ("PUSH 1 PUSH 2 PUSH 3 CALLDATACOPY", "PUSH 1 PUSH 2 PUSH 3 CODECOPY")]:
    print(x, "|", y, "->", gasol_asm.compare_asm_block_asm_format(blk(x), blk(y), p))
