#!/bin/bash
# tools/twin_ingest.sh <Cnn> : copy the refactoring patches of /tmp/twin5/<Cnn>/_twin into /verif/twins/<Cnn>/ and score them
set -e
p=$1; src=/tmp/twin5/$p/_twin; d=/verif/twins/${p}e
mkdir -p $d
cp $src/patch*.diff $src/NOTES.md $d/ 2>/dev/null || true
mkdir -p /tmp/twinscore_$p/$p && cp $d/patch*.diff /tmp/twinscore_$p/$p/
python3 /verif/tools/seed.py twins /tmp/twinscore_$p | python3 -c "
import json,sys
d=json.load(sys.stdin)
for k,v in d.items():
    print(k, 'SILENT' if not v else {p:(x.get('rc'), x.get('keys',[])[:3] or x.get('tail','')[-200:]) for p,x in v.items()} if 'error' not in v else v)"
rm -rf /tmp/twinscore_$p
