"""Whole-tree alpha-renaming of function locals (not parameters, not globals): every local `v` becomes `v_`."""
import ast, os, sys, symtable
sys.path.insert(0, "/verif")
from sa.core.loader import EXCLUDED_TOP

class Ren(ast.NodeTransformer):
    def __init__(self):
        self.stack = []
    def _locals(self, fn):
        params = {a.arg for a in fn.args.posonlyargs + fn.args.args + fn.args.kwonlyargs}
        if fn.args.vararg: params.add(fn.args.vararg.arg)
        if fn.args.kwarg: params.add(fn.args.kwarg.arg)
        glob = set(); assigned = set(); nested_used=set()
        for n in ast.walk(fn):
            if isinstance(n, (ast.Global, ast.Nonlocal)): glob |= set(n.names)
        def walk(node, top):
            for c in ast.iter_child_nodes(node):
                if isinstance(c, (ast.FunctionDef, ast.AsyncFunctionDef, ast.Lambda, ast.ClassDef, ast.ListComp, ast.SetComp, ast.DictComp, ast.GeneratorExp)):
                    for x in ast.walk(c):
                        if isinstance(x, ast.Name): nested_used.add(x.id)
                    continue
                if isinstance(c, ast.Name) and isinstance(c.ctx, (ast.Store, ast.Del)): assigned.add(c.id)
                walk(c, False)
        walk(fn, True)
        # do not rename names also used inside nested scopes (closures / comprehensions): keeps the transformation trivially safe
        return {v for v in assigned if v not in params and v not in glob and v not in nested_used and not v.startswith("__")}
    def visit_FunctionDef(self, node):
        loc = self._locals(node)
        self.stack.append(loc)
        node.body = [self.visit(b) for b in node.body]
        self.stack.pop()
        return node
    visit_AsyncFunctionDef = visit_FunctionDef
    def _skip(self, node):
        return node
    visit_Lambda = visit_ListComp = visit_SetComp = visit_DictComp = visit_GeneratorExp = visit_ClassDef = lambda self, node: node
    def visit_Name(self, node):
        if self.stack and node.id in self.stack[-1]:
            return ast.copy_location(ast.Name(id=node.id + "_", ctx=node.ctx), node)
        return node

def overlay(root):
    ov = {}
    for dirpath, dirnames, filenames in os.walk(root):
        rel = os.path.relpath(dirpath, root)
        parts = [] if rel == "." else rel.split(os.sep)
        if parts and parts[0] in EXCLUDED_TOP:
            dirnames[:] = []; continue
        for fn in filenames:
            if fn.endswith(".py"):
                p = os.path.join(dirpath, fn)
                try:
                    import warnings
                    with warnings.catch_warnings():
                        warnings.simplefilter("ignore")
                        t = ast.parse(open(p, encoding="utf-8").read())
                    # class methods: visit inside classes too
                    r = Ren()
                    for node in ast.walk(t):
                        if isinstance(node, ast.ClassDef):
                            node.body = [r.visit_FunctionDef(b) if isinstance(b, (ast.FunctionDef, ast.AsyncFunctionDef)) else b for b in node.body]
                    t.body = [r.visit_FunctionDef(b) if isinstance(b, (ast.FunctionDef, ast.AsyncFunctionDef)) else b for b in t.body]
                    src = ast.unparse(ast.fix_missing_locations(t)) + "\n"
                    compile(src, p, "exec")
                    ov[os.path.relpath(p, root)] = src
                except Exception as e:
                    print("skip", p, e)
    return ov

if __name__ == "__main__":
    from sa.runner import analyse, decide
    ov = overlay("/repo")
    print(len(ov), "files")
    import warnings; warnings.simplefilter("ignore")
    for p in sys.argv[1:]:
        res = analyse(p, "/repo", tier="quick", overlay=ov)
        if res.error:
            print(p, "ANALYSIS-ERROR", res.error[:200]); continue
        decide(res)
        print(p, "violations:", [f.key for f in res.violations][:6] or "none", ("| rules not applicable: " + "; ".join(m[:90] for _, m in res.rule_errors)) if res.rule_errors else "")
