#!/usr/bin/env python3
"""Regenerate MANIFEST.json from the table below (single source of truth for the interface)."""
import json, os
HERE = os.path.dirname(os.path.dirname(os.path.abspath(__file__)))

import sys, importlib
sys.path.insert(0, HERE)
CLAIMED = {}
for _p in ["C%02d" % i for i in range(1, 19)]:
    if os.path.exists(os.path.join(HERE, "sa", "rules", _p + ".py")):
        _m = importlib.import_module("sa.rules." + _p)
        CLAIMED[_p] = (_m.TECHNIQUE, _m.LEVEL_TEXT, "§4/" + _p)

NOT_APPLICABLE = {
 "C07": "optimum preservation quantifies over the model set of formulas generated at run time; no shape of the generator's source implies or refutes it (needs a solver or exhaustive search, which is a different technique family)",
}

PENDING = "check not built yet in this tree (see DESIGN.md §7 build order); not claimed until it exists"

def main():
    props = [json.loads(l)["id"] for l in open(os.path.join(HERE, "properties.jsonl"))]
    checks = []
    na = []
    for pid in props:
        if pid in CLAIMED:
            tech, text, ref = CLAIMED[pid]
            checks.append({
                "property_id": pid,
                "quick_cmd": f"./check {pid} --tier quick",
                "thorough_cmd": f"./check {pid} --tier thorough",
                "evidence_file": f"/verif/evidence/{pid}.json",
                "replay_cmd_template": f"./check {pid} --replay {{path}}",
                "engine": "sa",
                "level_claimed": {"category": "other", "text": text, "design_ref": ref},
                "level_note": "Trusted base: Python's ast/symtable parser, the frozen EVM/SMT-LIB reference tables in sa/specs/evm.py, and the stated Python-subset premises (no eval/exec/dynamic attribute access in anchored functions; checked). Static analysis only: no repository code is imported or executed.",
                "technique": "static analysis: " + tech,
            })
        else:
            na.append({"property_id": pid, "reason": NOT_APPLICABLE.get(pid, PENDING)})
    manifest = {
        "version": 1,
        "setup_cmd": "true",
        "hooks": {"guard": "GASOL_OPTIMIZER_VERIF", "enable": "no hooks: the checks read /repo's source text only",
                  "baseline_off_cmd": "cd /repo && /venv/bin/python -m pytest -ra -q -p no:cacheprovider --timeout=900 --continue-on-collection-errors",
                  "source_commits": [], "add_only": True},
        "engines": [{"name": "sa", "path": "/verif/sa", "serves_properties": sorted(CLAIMED),
                     "kind_free_text": "repository-specific static analyser (ast/symtable, own CFG, call graph, abstract interpreters); pure stdlib, run with /venv/bin/python"}],
        "checks": checks,
        "notes": "Static analysis family only. Every check parses /repo's current working tree on each run. KNOWN_FINDINGS.txt lists genuine defects recorded rather than repaired. See DESIGN.md.",
        "not_applicable": na,
    }
    with open(os.path.join(HERE, "MANIFEST.json"), "w") as f:
        json.dump(manifest, f, indent=1)
        f.write("\n")

if __name__ == "__main__":
    main()
