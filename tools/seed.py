#!/usr/bin/env python3
"""Seeded-change workflow.

  tools/seed.py confirm <seed dir>     in a scratch worktree (under /tmp, removed afterwards): demo passes without the patch,
                                       fails with it, changed files byte-compile; prints a JSON summary
  tools/seed.py score <seed dir>       applies patch.diff to /repo, runs every quick check, reverts (git checkout -- .),
                                       prints which checks fired and with which finding keys
A seed dir holds patch.diff, demo.py (or demo_test.py) and meta.json.
"""
import json
import os
import subprocess
import sys
import tempfile

VERIF = os.path.dirname(os.path.dirname(os.path.abspath(__file__)))
PROPS = ["C01", "C02", "C03", "C04", "C05", "C06", "C08", "C09", "C10", "C11", "C12", "C13", "C14", "C15", "C16", "C17", "C18"]


def sh(cmd, cwd=None, timeout=900, env=None):
    p = subprocess.run(cmd, shell=True, cwd=cwd, capture_output=True, text=True, timeout=timeout, env=env)
    return p.returncode, p.stdout + p.stderr


def confirm(seed):
    seed = os.path.abspath(seed)
    wt = tempfile.mkdtemp(prefix="seedconfirm_", dir="/tmp")
    os.rmdir(wt)
    res = {"seed": seed}
    try:
        rc, out = sh(f"git -C /repo worktree add -q --detach {wt} HEAD")
        if rc:
            raise SystemExit(out)
        os.makedirs(f"{wt}/_seed", exist_ok=True)
        sh(f"cp {seed}/*.py {wt}/_seed/ 2>/dev/null; cp -r {seed}/inputs {wt}/_seed/ 2>/dev/null")
        demo = "demo.py"
        env = dict(os.environ, PYTHONPATH=wt, PYTHONDONTWRITEBYTECODE="1")
        rc0, out0 = sh(f"timeout 600 /venv/bin/python _seed/{demo}", cwd=wt, env=env)
        res["demo_without_patch_rc"] = rc0
        rca, outa = sh(f"git apply {seed}/patch.diff", cwd=wt)
        res["patch_applies"] = rca == 0
        if rca:
            res["apply_output"] = outa[-400:]
        rc1, out1 = sh(f"timeout 600 /venv/bin/python _seed/{demo}", cwd=wt, env=env)
        res["demo_with_patch_rc"] = rc1
        res["demo_with_patch_tail"] = out1[-600:]
        rcc, outc = sh("git diff --name-only | grep '\\.py$' | xargs -r /venv/bin/python -m py_compile", cwd=wt)
        res["compiles"] = rcc == 0
        rcf, files = sh("git diff --name-only", cwd=wt)
        res["files"] = files.split()
        res["confirmed"] = rc0 == 0 and rc1 != 0 and rca == 0 and rcc == 0
        if rc0 != 0:
            res["demo_without_patch_tail"] = out0[-600:]
    finally:
        sh(f"git -C /repo worktree remove --force {wt}")
    print(json.dumps(res, indent=1))
    return 0 if res.get("confirmed") else 1


def score(seed):
    seed = os.path.abspath(seed)
    rc, out = sh("git -C /repo status --porcelain --untracked-files=no")
    if out.strip():
        raise SystemExit("/repo has uncommitted changes:\n" + out)
    rc, out = sh(f"git -C /repo apply {seed}/patch.diff")
    if rc:
        raise SystemExit("patch does not apply: " + out)
    fired = {}
    try:
        for p in PROPS:
            ev = f"/tmp/seed_ev_{p}.json"
            rc, out = sh(f"./check {p} --evidence {ev}", cwd=VERIF, timeout=300)
            keys = []
            vf = ev + ".viol.json"
            if rc == 1 and os.path.exists(vf):
                keys = [v["key"] for v in json.load(open(vf))["violations"]]
            if rc != 0:
                fired[p] = {"rc": rc, "keys": keys, "tail": "" if keys else out[-300:]}
            for f in (ev, vf):
                if os.path.exists(f):
                    os.remove(f)
    finally:
        sh("git -C /repo checkout -- .")
    print(json.dumps({"seed": seed, "fired": fired}, indent=1))
    return 0


def _score_in_worktree(seed, patch_name="patch.diff"):
    """Like score(), but in a scratch worktree (so that several seeds can be scored at once); removed afterwards."""
    seed = os.path.abspath(seed)
    wt = tempfile.mkdtemp(prefix="seedscore_", dir="/tmp")
    os.rmdir(wt)
    fired = {}
    try:
        rc, out = sh(f"git -C /repo worktree add -q --detach {wt} HEAD")
        if rc:
            return seed, {"error": out}
        rc, out = sh(f"git apply {seed}/{patch_name}", cwd=wt)
        if rc:
            return seed, {"error": "patch does not apply: " + out}
        for p in PROPS:
            ev = f"{wt}.ev_{p}.json"
            rc, out = sh(f"./check {p} --root {wt} --evidence {ev}", cwd=VERIF, timeout=600)
            keys = []
            vf = ev + ".viol.json"
            if rc == 1 and os.path.exists(vf):
                keys = [v["key"] for v in json.load(open(vf))["violations"]]
            if rc != 0:
                fired[p] = {"rc": rc, "keys": keys, "tail": "" if keys else out[-300:]}
            for f in (ev, vf):
                if os.path.exists(f):
                    os.remove(f)
    finally:
        sh(f"git -C /repo worktree remove --force {wt}")
    return seed, fired


def matrix(root):
    from concurrent.futures import ThreadPoolExecutor
    seeds = sorted(os.path.join(root, d) for d in os.listdir(root) if os.path.exists(os.path.join(root, d, "patch.diff")))
    res = {}
    with ThreadPoolExecutor(max_workers=8) as ex:
        for seed, fired in ex.map(_score_in_worktree, seeds):
            res[os.path.basename(seed)] = fired
    sh("git -C /repo worktree prune")
    print(json.dumps(res, indent=1))
    return 0


def twins(root):
    """root/<name>/patchN.diff : behaviour-preserving refactorings.  Every check must stay silent (rc 0) on each of them."""
    from concurrent.futures import ThreadPoolExecutor
    jobs = []
    for d in sorted(os.listdir(root)):
        for f in sorted(os.listdir(os.path.join(root, d))):
            if f.startswith("patch") and f.endswith(".diff"):
                jobs.append((os.path.join(root, d), f))
    res = {}
    with ThreadPoolExecutor(max_workers=8) as ex:
        for (d, f), (seed, fired) in zip(jobs, ex.map(lambda j: _score_in_worktree(*j), jobs)):
            res[f"{os.path.basename(d)}/{f}"] = fired
    sh("git -C /repo worktree prune")
    print(json.dumps(res, indent=1))
    return 0


if __name__ == "__main__":
    if len(sys.argv) == 3 and sys.argv[1] == "twins":
        sys.exit(twins(sys.argv[2]))
    if len(sys.argv) == 3 and sys.argv[1] == "matrix":
        sys.exit(matrix(sys.argv[2]))
    if len(sys.argv) != 3 or sys.argv[1] not in ("confirm", "score"):
        raise SystemExit(__doc__)
    sys.exit(confirm(sys.argv[2]) if sys.argv[1] == "confirm" else score(sys.argv[2]))
