#!/bin/bash
# tools/ingest.sh <src worktree seed dir> <seed name> : copy deliverables, confirm, score
set -e
src=$1; name=$2; d=/verif/seeded/$name
mkdir -p $d
cp $src/patch.diff $src/*.py $src/NOTES.md $d/ 2>/dev/null || true
[ -d $src/inputs ] && cp -r $src/inputs $d/ || true
echo "== $name"; grep "^[-+]" $d/patch.diff | grep -v "^+++\|^---" | head -14
python3 /verif/tools/seed.py confirm $d | grep "confirmed\|_rc" || true
python3 /verif/tools/seed.py score $d | python3 -c "
import json,sys
d=json.load(sys.stdin)
for p,v in d['fired'].items(): print('  FIRED', p, 'rc', v['rc'], v['keys'][:4], v['tail'][-150:])
if not d['fired']: print('  NOT DETECTED')
"
